#!/usr/bin/env python3
"""mkledger.py : brings the fix table (10.3) and the open-findings list (10.4) of DESIGN.md up to date with known_findings.json.
Idempotent: adds the entries that are not in the text yet, refreshes commit hashes of the rows that are."""
import json,re
k=json.load(open('/verif/known_findings.json'))['findings']
p='/verif/DESIGN.md'
d=open(p).read()
fixed=[e for e in k if e['status']=='fixed']
opn=[e for e in k if e['status']=='open']
rows=""
for e in fixed:
    row='| %s | %s | %s |'%(e['id'],e['commit'],e['what'].replace('|','\\|'))
    m=re.search(r'^\| '+re.escape(e['id'])+r' \| \w+ \| .*$',d,re.M)
    if m:
        d=d.replace(m.group(0),row)
    else:
        rows+=row+"\n"
anchor="\nRepairs that were tried and withdrawn"
assert anchor in d
d=d.replace(anchor,rows.rstrip("\n")+("\n" if rows else "")+anchor,1) if rows else d
items=""
for e in opn:
    if ('**'+e['id']+'**') not in d:
        items+='* **%s** (match %s): %s\n'%(e['id'],json.dumps(e['match']),e['what'])
anchor2="\nFalse alarms were never listed here"
assert anchor2 in d
if items: d=d.replace(anchor2,items.rstrip("\n")+"\n"+anchor2,1)
open(p,'w').write(d)
print("fixed",len(fixed),"open",len(opn),"rows added",rows.count("\n"),"open added",items.count("\n"))
