#!/usr/bin/env python3
"""mkprompts.py <n1> <n2> [ids...] : prepare one round of seeded-change requests.
For every property: creates a scratch worktree /tmp/seed-<id> of /repo HEAD, an output directory /tmp/seed-<id>-out and writes
/tmp/seed-<id>-out/PROMPT.md holding ONLY the property's text, the one-line list of earlier changes (so that the new ones are of a
different nature) and the delivery format. Nothing from /verif's checks goes into the prompt."""
import json,os,re,subprocess,sys
n1,n2=sys.argv[1],sys.argv[2]
want=sys.argv[3:]
props=[json.loads(l) for l in open('/verif/properties.jsonl')]
earlier={}
for line in open('/verif/DESIGN.md'):
    m=re.match(r'^\| (C\d\d-\d+(?: / C\d\d-\d+)?) \| ([^|]+) \|',line)
    if not m: continue
    for sid in m.group(1).split(' / '):
        earlier.setdefault(sid[:3],[]).append(m.group(2).strip())
head=subprocess.run("git -C /repo rev-parse --short HEAD",shell=True,capture_output=True,text=True).stdout.strip()
for p in props:
    pid=p['id']
    if want and pid not in want: continue
    wt=f"/tmp/seed-{pid}"; out=f"/tmp/seed-{pid}-out"
    subprocess.run(f"git -C /repo worktree remove --force {wt}; rm -rf {wt} {out}; git -C /repo worktree prune; git -C /repo worktree add --detach {wt} HEAD",shell=True,capture_output=True)
    os.makedirs(out,exist_ok=True)
    prev="\n".join(f"- {t}" for t in earlier.get(pid,[]))
    txt=f"""# Task: two realistic breaking changes for one property of getkin/kin-openapi

You work ONLY in the git worktree `{wt}` (a checkout of getkin/kin-openapi, a Go library for OpenAPI 2/3 documents, at commit {head}) and
write your results to `{out}`. Do not read, list or use anything under `/verif` and do not touch `/repo`. There is no network.
Every shell call needs: `export GOFLAGS=-mod=mod GOPROXY=off GOSUMDB=off GOTOOLCHAIN=local`.

## The property

**{p['title']}**

{p['statement']}

Quantified over: {p['quantifier']['text']}

## What to deliver

Two independent changes to the library's non-test source (numbered {n1} and {n2}), each of which
1. compiles (`go build ./...`) and leaves the existing test suite passing (`go test -vet=off -count=1 ./...` in the worktree: compare with
   the unchanged tree first; tests that already fail there because the sandbox has no network, such as TestExtraSiblingsInRemoteRef and
   TestIssue495WithDraft04, do not count),
2. breaks the property above: with the change there is an input / sequence of calls / interleaving for which the statement is false,
3. needs something specific to manifest - a particular interleaving, a fault at a particular point, a multi-step sequence of
   operations (objects kept and used again, caller-owned values, a second call), an unusual but legal input, a seldom used option or
   entry point, or two cooperating sites that each look fine alone - and is NOT something ordinary use would expose at once,
4. looks like something a maintainer could plausibly commit (a refactoring, an optimisation, a fast path, a cache, a tidy-up, a
   well-meant fix), a few lines to a few dozen lines,
5. is of a different nature, and preferably in different functions, than these earlier changes (already made for this property):
{prev}

For each change write a demonstration: a Go test file (`seeded_demo{n1}_test.go` / `seeded_demo{n2}_test.go`, test names starting with
`TestSeededDemo{n1}` / `TestSeededDemo{n2}`) placed in the package it tests, which FAILS with the change and PASSES without it, and which
states the property violation in its failure message. Confirm both directions yourself.

Files to write:
- `{out}/patch{n1}.diff` and `{out}/patch{n2}.diff`: `git diff` of the library change only (no test file inside), each applying on its own to
  the clean worktree (`git apply --check`),
- `{out}/demo{n1}/` and `{out}/demo{n2}/`: the demonstration test file and a `README` with the package directory it belongs to and the exact
  command (write `-race` into the README if the demonstration needs the race detector),
- `{out}/notes.md`: per change - what changed, why the property breaks, what exactly is needed for it to manifest, the commands you ran and
  their results (suite with the change, demonstration with and without).
- In `{out}/notes.md`, a final section "Observations on the unmodified tree": while probing, note every input / call sequence for which the
  UNCHANGED tree already violates the property as stated (exact input, exact call, what happens). These are valuable; be concrete.

Leave the worktree clean of your library edits at the end (`git checkout -- .`; remove your test files from it). Keep the build cache;
do not create other large files. Finish with a short report: the two changes in one line each and whether every confirmation succeeded.
"""
    open(out+"/PROMPT.md","w").write(txt)
    print(pid,"prepared",wt,len(earlier.get(pid,[])),"earlier changes listed")
