#!/usr/bin/env python3
"""addfinding.py fixed|open <property> <id> '<match json>' '<what>' ['<subject prefix of the fix commit>']
Appends one entry to known_findings.json (maintenance only; checks never write this file)."""
import json,sys,subprocess
status,prop,fid,match,what=sys.argv[1:6]
ff=json.load(open('/verif/known_findings.json'))
assert not any(f['id']==fid for f in ff['findings']),"duplicate id"
e={"property":prop,"id":fid,"status":status,"match":json.loads(match),"what":what}
if status=="fixed":
    subj=sys.argv[6]
    log=subprocess.run(['git','-C','/repo','log','--format=%h %s'],capture_output=True,text=True).stdout.splitlines()
    hit=[l.split()[0] for l in log if subj in l]
    assert hit,"no commit with that subject"
    e["commit"]=hit[0]; e["subject"]=subj
    e["line"]="fixed: property=%s %s %s"%(prop,hit[0],what)
else:
    e["line"]="KNOWN-FINDING: property=%s %s"%(prop,what)
ff['findings'].append(e)
json.dump(ff,open('/verif/known_findings.json','w'),indent=1)
print("added",fid,e.get("commit",""))
