#!/bin/sh
# reverify.sh Cxx n : re-verify a stored (rebased) seed through store_seed.py, keeping the added meta fields
P=$1; N=$2
O=/tmp/seed-$P-out; rm -rf $O; mkdir -p $O/demo$N
cp /verif/seeded/$P-$N/patch.diff $O/patch$N.diff
cp /verif/seeded/$P-$N/notes.md $O/notes.md
for f in /verif/seeded/$P-$N/demo/*.txt; do cp $f $O/demo$N/$(basename $f .txt); done
[ -f /verif/seeded/$P-$N/demo/README ] && cp /verif/seeded/$P-$N/demo/README $O/demo$N/README
cp /verif/seeded/$P-$N/meta.json /tmp/meta-$P-$N.json
python3 /verif/store_seed.py $P $N 2>&1 | tail -4
python3 - <<PY
import json
old=json.load(open('/tmp/meta-$P-$N.json')); new=json.load(open('/verif/seeded/$P-$N/meta.json'))
for k in ('rebased','caught_by','applies_to_head','also_try'):
    if k in old: new[k]=old[k]
json.dump(new,open('/verif/seeded/$P-$N/meta.json','w'),indent=1)
PY
rm -rf $O /tmp/meta-$P-$N.json
