#!/bin/sh
# seedcross.sh <Cxx> <n> <check...> : run other properties' quick checks against a freshly delivered seed of Cxx
ID=$1; N=$2; shift; shift
for K in "$@"; do
  echo "== $ID-$N under $K"
  SEEDLINES=2 /verif/seedtest.sh /tmp/seed-$ID-out/patch$N.diff $K | grep -v KNOWN | cut -c1-200 | grep -v "^VIOLATION"
done
