#!/usr/bin/env python3
"""seedsweep2.py [-j N] [ids...] : like seedsweep.py, but without touching /repo's working tree: every lane works in its own
scratch worktree of /repo HEAD (under /var/tmp), builds the harness against it (go build -modfile with the replace directive
pointing at the worktree) and runs the checks with VERIF_REPO / VERIF_ROOT redirected, so evidence and replays of /verif are
left alone and other checks may run at the same time. Records applies_to_head / caught_by in each seed's meta.json."""
import json,os,subprocess,sys,glob,shutil,threading,queue
env0=dict(os.environ,GOFLAGS="-mod=mod",GOPROXY="off",GOSUMDB="off",GOTOOLCHAIN="local")
def sh(cmd,cwd=None,env=None):
    return subprocess.run(cmd,shell=True,cwd=cwd,env=env or env0,capture_output=True,text=True)
args=sys.argv[1:]
lanes=2
if args and args[0]=="-j": lanes=int(args[1]); args=args[2:]
head=sh("git -C /repo rev-parse --short HEAD").stdout.strip()
ids=args or sorted(os.path.basename(d) for d in glob.glob('/verif/seeded/C*'))
q=queue.Queue()
for i in ids: q.put(i)
lock=threading.Lock()
def lane(k):
    base=f"/var/tmp/vp-sweep{k}"
    wt=base+"/repo"; root=base+"/root"; bind=base+"/bin"
    sh(f"git -C /repo worktree remove --force {wt}"); shutil.rmtree(base,ignore_errors=True)
    os.makedirs(root); os.makedirs(bind)
    r=sh(f"git -C /repo worktree add --detach {wt} HEAD")
    if r.returncode!=0: print("worktree failed",r.stderr); return
    mod=open("/verif/harness/go.mod").read().replace("=> /repo","=> "+wt)
    open(base+"/go.mod","w").write(mod); shutil.copy("/repo/go.sum",base+"/go.sum")
    env=dict(env0,VERIF_REPO=wt,VERIF_ROOT=root,VERIF_PAR="16")
    try:
        while True:
            try: sid=q.get_nowait()
            except queue.Empty: break
            d=f"/verif/seeded/{sid}"
            meta=json.load(open(d+"/meta.json"))
            patch=d+"/patch.diff"
            shutil.copy("/verif/known_findings.json",root+"/known_findings.json")
            def try_apply():
                sh("git reset --hard -q && git clean -fdq",cwd=wt)
                if sh(f"git apply {patch}",cwd=wt).returncode==0: return "plain"
                sh("git reset --hard -q && git clean -fdq",cwd=wt)
                if sh(f"git apply --3way {patch}",cwd=wt).returncode==0:
                    sh("git reset -q",cwd=wt); return "3way"
                sh("git reset --hard -q && git clean -fdq",cwd=wt)
                return None
            how=try_apply()
            if how is None:
                meta["applies_to_head"]={"commit":head,"applies":False}
                json.dump(meta,open(d+"/meta.json","w"),indent=1)
                with lock: print(sid,"DOES NOT APPLY",flush=True)
                continue
            caught=[]
            props=[meta["property"]]+meta.get("also_try",[])
            try:
                b=sh(f"go build -modfile={base}/go.mod -tags verif -o {bind}/vcheck ./cmd/vcheck",cwd="/verif/harness")
                if b.returncode!=0:
                    with lock: print(sid,"BUILD FAILED",b.stderr[:300],flush=True)
                    continue
                if "C15" in props:
                    sh(f"go build -race -modfile={base}/go.mod -tags verif -o {bind}/vcheck-race ./cmd/vcheck",cwd="/verif/harness")
                for prop in props:
                    for tier in ("quick","thorough"):
                        r=sh(f"{bind}/vcheck {prop} --tier {tier}",cwd=root,env=env)
                        vio=[l for l in r.stdout.splitlines() if l.startswith("VIOLATION")]
                        if r.returncode==1 and vio:
                            feats=[l.strip() for l in r.stdout.splitlines() if l.strip().startswith("features:")][:2]
                            caught.append({"check":prop,"tier":tier,"violations":len(vio),"first_features":feats})
                            break
                        if prop!=meta["property"]: break
            finally:
                sh("git reset --hard -q && git clean -fdq",cwd=wt)
            meta["applies_to_head"]={"commit":head,"applies":True,"how":how}
            meta["caught_by"]=caught or None
            json.dump(meta,open(d+"/meta.json","w"),indent=1)
            with lock: print(sid,"caught by",[(c["check"],c["tier"]) for c in caught] or "NOTHING",flush=True)
    finally:
        sh(f"git -C /repo worktree remove --force {wt}"); shutil.rmtree(base,ignore_errors=True)
ts=[threading.Thread(target=lane,args=(k,)) for k in range(lanes)]
for t in ts: t.start()
for t in ts: t.join()
sh("git -C /repo worktree prune")
