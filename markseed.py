#!/usr/bin/env python3
"""markseed.py <Cxx-n> <first_run: caught|missed|caught-by:Cyy> <check> [tier] : record in the seed's meta.json which check catches it."""
import json,sys
sid,first,chk=sys.argv[1:4]; tier=sys.argv[4] if len(sys.argv)>4 else "quick"
p=f'/verif/seeded/{sid}/meta.json'; m=json.load(open(p))
m['first_run']=first
cb=[c for c in (m.get('caught_by') or []) if isinstance(c,dict) and c.get('check')!=chk]
cb.append({"check":chk,"tier":tier}); m['caught_by']=cb
if chk!=m['property']: m['also_try']=sorted(set(m.get('also_try',[])+[chk]))
json.dump(m,open(p,'w'),indent=1); print(sid,first,chk)
