#!/usr/bin/env python3
"""Regenerates MANIFEST.json from the table below (kept by hand as checks are added)."""
import json, subprocess
CHECKS = {
 "C01": dict(technique="runtime monitoring: reference-model oracle (independent draft-4/OAS3 evaluator) over enumerated+sampled schema x value executions, with panic guard",
   text="Every execution of Schema.VisitJSON / IsMatching on ~8M distinct (schema,value) pairs (all atoms, all atom pairs, every applicator wrap, random trees) is compared online with an independent three-valued reference evaluator; held on what was executed, nothing beyond.",
   note="Trusts internal/refeval for the non-contested zone; contested null/multipleOf zones carry no verdict; schemas enter through the library's own JSON unmarshaller.", ref="4 C01, 3.1"),
 "C12": dict(technique="runtime monitoring: metamorphic oracle across validation modes + RFC 6901 trace check of every returned SchemaError pointer/value, panic guard",
   text="Each (schema,value) is executed in 7 modes (default, FailFast, MultiErrors, customiser, both, IsMatching, IsMatchingJSON<T>); any verdict difference or panic is a violation; every SchemaError returned directly or inside a MultiError has its JSONPointer resolved in the validated value and its quoted Value compared; pointer must be stable across calls. Held on the executions listed in evidence.",
   note="Relies on the pointer convention for 'required' (enclosing object + missing key); errors under Origin are not asserted; VisitJSON<Type> entry points are outside the statement and not compared.", ref="4 C12"),
 "C19": dict(technique="runtime monitoring: taint-style marker monitor — unique marker strings at every string leaf of rejected values, substring search over every reachable SchemaError.Reason and over Error() with details disabled / reason-only customiser",
   text="Every rejected (schema, marked value) execution has all reachable SchemaErrors (MultiError members, Origin/Unwrap chains, oneOf sub-errors) walked; a marker inside any Reason, inside Error() under SchemaErrorDetailsDisabled (odd shards, own process) or inside a reason-only customised message is a violation. Held on the executions in evidence; every SchemaField has a floor of inspected reasons.",
   note="Object keys are not value strings; custom format validators registered by the harness do not quote input; request-level reason-only messages are additionally exercised by the openapi3filter checks once built.", ref="4 C19"),
 "C05": dict(technique="runtime monitoring: reference-model oracle (independent OAS style serializer as the inverse, reference schema evaluator for the verdict) observing the decode hook and ValidateParameter on routed requests",
   text="For every legal (in, style, explode) cell incl. omitted defaults x shape x value x presence x required-ness, with and without unrelated neighbouring parameters and for several parameter names, the request is built by an independent serializer, routed by the real router, decoded through the verif hook (must equal the serialised value) and validated (verdict must equal the reference: schema verdict, missing-required, absent-optional, wrong-lexical-class => ParseError, structural garbage => rejected). Held on the executions in evidence.",
   note="Trusts gen/style.go as a reading of the OAS 3.0.3 style table and internal/refeval; values with the cell's own delimiters, empty strings and empty arrays are excluded (undefined serialisation); lenient numeric/boolean spellings are not judged. Uses the verif hook VerifDecodeStyledParameter.", ref="4 C05"),
 "C06": dict(technique="runtime monitoring: reference-model oracles (media-type precedence model observed through per-entry distinguishing schemas; independent body encoders; as-request reference evaluator) over ValidateRequest executions",
   text="Selection: all 127 subsets of 7 declared media-type keys x 11 Content-Type headers x every index body: the accepted index reveals the entry the library selected and must equal the documented precedence; undeclared types and required/optional empty bodies. Decoding/reading: JSON bodies over C01's schema space and over readOnly/writeOnly/required/default combinations x option sets, form-urlencoded/multipart/text bodies from independent encoders incl. fields of the wrong lexical class; verdict must equal the as-request reference. Held on the executions in evidence.",
   note="Absent Content-Type with */* declared and wildcard-selected types without a registered decoder are contested (no verdict). Trusts internal/refeval and the harness encoders.", ref="4 C06"),
 "C07": dict(technique="runtime monitoring: boolean reference model of request validation + online trace checker of AuthenticationFunc calls, over an exhaustively enumerated case space",
   text="Every combination of document/operation security shape, callback outcomes, parameter layout (override by (in,name), decoy same name other location), good/bad/absent rendering of each parameter and the body, body requiredness and 7 option sets is executed through the real router and ValidateRequest; the verdict must equal the boolean model, MultiError members must be exactly the failing parts, and the recorded sequence of AuthenticationFunc calls (scheme, scopes) must equal the model's evaluation order. Exhaustive over the stated finite space.",
   note="The model is boolean because every part has an independently controlled good/bad/absent rendering; schema reasoning is C01/C05/C06's business. Callback outcomes depend on the scheme name only (scopes are checked in the trace).", ref="4 C07"),
 "C08": dict(technique="runtime monitoring: reference model of response-definition selection observed through per-entry distinguishing schemas, header/content/as-response reference verdicts, and a body-readability invariant checked after every ValidateResponse call",
   text="All 63 subsets of {1XX,200,201,2XX,4XX,default} x 18 statuses x GET/HEAD x strict on/off x every index body; header shapes x required x valid/violating/unparsable/absent; content-type cases incl. types without decoder, broken and over-long bodies; readOnly/writeOnly/required object schemas under the as-response reference; after each call input.Body is re-read and compared byte-for-byte. Exhaustive over the stated finite space.",
   note="Trusts the reference precedence (exact, class, default) and internal/refeval in as-response mode; headers defined by content are only checked for crash-freedom and presence.", ref="4 C08"),
 "C13": dict(technique="runtime monitoring: post-condition monitor on the forwarded request (independent re-read of body, query, headers, cookies), reference default-merge model, and metamorphic re-validation (idempotence) of every accepted request",
   text="All presence subsets of six defaulted parameters x 24 bodies x option sets x body-reading auth callbacks (accepting, rejecting, first alternative rejecting) x GetBody present/absent: after ValidateRequest the body must be readable in full (original bytes, or JSON-equal to the reference default merge when defaults were set), ContentLength/GetBody consistent, untouched parameters unchanged, every defaulted parameter decodable to its default from the forwarded request, and a second validation must pass and change nothing. Exhaustive over the stated finite space.",
   note="Reference merge follows matched oneOf/anyOf branches only; explicit nulls are excluded; byte identity is required under SkipSettingDefaults and after failed validations that did not set defaults. Uses the verif hook.", ref="4 C13"),
 "C14": dict(technique="runtime monitoring: differential oracle (bare handler vs middleware against recording writers), ValidateResponse as the definition of an invalid response, handler-invocation counter, over all handler scripts up to length 4",
   text="All 11111 handler scripts of length<=4 over 10 writer operations x 5 request classes x strict on/off x default/custom callbacks x 4 validation option sets through Validator.Middleware, plus the request gate of ValidationHandler (both entry points, 7 request classes incl. unknown and lower-case methods): handler runs iff routed and valid; strict+invalid => 500 and no handler byte/status at the client; strict+valid => exactly the handler's status and body; non-strict => transcript identical to the bare handler; OnErr arguments as specified; no panic. Exhaustive over the stated finite space.",
   note="Client view = httptest.ResponseRecorder semantics; response headers are outside the statement; in strict mode the handler's status is the first WriteHeader (else 200) because the strict wrapper offers no Flush.", ref="4 C14"),
 "C09": dict(technique="runtime monitoring: reference-model oracle (independent segment matcher + server URL model) over FindRoute executions of both routers, with a history monitor on previously returned routes",
   text="For all single/pair (and sampled or all triple) template sets over {a,b,{x},{y}} of <=3 segments x 6 server layouts (none, relative, absolute, two servers, host/base variables, path-item servers) x filled URLs and near misses x GET/POST/DELETE, each FindRoute result of gorillamux and legacy is judged: returned operation is pointer-identical to the declared one, substitution of returned parameters reproduces the path after the base, every fill of a declared template with a declared method is routed, a literal template wins, non-matching URLs give a RouteError, and a route returned earlier is unchanged by later calls.",
   note="Relative/no servers use server-side style requests (path-only URL, Host header), absolute servers use absolute request URLs; trailing slashes are insignificant for the legacy router (its documented convention); path-item servers are exercised on gorillamux only (the legacy router only knows document servers).", ref="4 C09"),
 "C10": dict(technique="runtime monitoring: crash monitors (recover() guard with stack signatures, child-process fatal-error log with write-ahead case attribution, CPU-time watchdog, address-space limit, allocation probe) over generated valid documents x hostile traffic",
   text="Hundreds (quick) / thousands (thorough) of generated documents that pass Validate, half biased to legal-but-unusual features, plus every validating document under the repository's testdata, each with both routers, are driven with grammar-built requests mutated at the byte level and with hostile responses through NewRouter, FindRoute, ValidateRequest, ValidateResponse (incl. nil body), ConvertErrors, the error encoders and both middleware modes under 8 option sets; any panic, fatal error, >30 CPU-second message or memory blow-up is a violation attributed to its message. Two inputs recorded as open findings run as probes in a shard of their own.",
   note="Only documents that load and validate are in scope (others are counted and discarded). Schedule-dependent crashes are C15's business. Non-productive schema cycles are kept out of the random generator (they are the probe) so that one known crash does not end every shard.", ref="4 C10"),
}
NOT_YET = {}
def main():
    props=[json.loads(l) for l in open('/verif/properties.jsonl')]
    hooks_commits=[]
    try:
        out=subprocess.run(['git','-C','/repo','log','--format=%H %s'],capture_output=True,text=True).stdout
        for l in out.splitlines():
            h,s=l.split(' ',1)
            if s.startswith('verif-hook:'): hooks_commits.append(h)
    except Exception: pass
    m={"version":1,
       "setup_cmd":"cd /verif/harness && cp /repo/go.sum go.sum && GOFLAGS=-mod=mod GOPROXY=off GOSUMDB=off GOTOOLCHAIN=local go build -tags verif -o /verif/bin/vcheck ./cmd/vcheck && GOFLAGS=-mod=mod GOPROXY=off GOSUMDB=off GOTOOLCHAIN=local go build -race -tags verif -o /verif/bin/vcheck-race ./cmd/vcheck",
       "hooks":{"guard":"verif","enable":"go build -tags verif (harness module /verif/harness with replace github.com/getkin/kin-openapi => /repo)",
                "baseline_off_cmd":"/verif/baseline.sh","source_commits":hooks_commits,"add_only":True},
       "engines":[{"name":"vcheck","path":"/verif/harness","serves_properties":sorted(CHECKS.keys()),
                   "kind_free_text":"Go harness: sharded child workers run the real library under monitors (panic guard, CPU-time watchdog, race detector, reference oracles, trace checkers); coordinator merges, matches known findings, writes evidence"}],
       "checks":[], "not_applicable":[],
       "notes":"Technique family: runtime monitoring and sanitizers. See DESIGN.md. known_findings.json lists open findings and fixed defects."}
    for p in props:
        pid=p['id']
        if pid in CHECKS:
            c=CHECKS[pid]
            m["checks"].append({"property_id":pid,"quick_cmd":"./run.sh %s quick"%pid,"thorough_cmd":"./run.sh %s thorough"%pid,
              "evidence_file":"/verif/evidence/%s.json"%pid,"replay_cmd_template":"./run.sh %s quick --replay {path}"%pid,
              "engine":"vcheck","level_claimed":{"category":"exploration","text":c["text"],"design_ref":c["ref"]},
              "level_note":c["note"],"technique":c["technique"]})
        else:
            m["not_applicable"].append({"property_id":pid,"reason":NOT_YET.get(pid,"not claimed yet: its runtime monitor is still being built (the technique applies; see DESIGN.md section 4)")})
    json.dump(m,open('/verif/MANIFEST.json','w'),indent=1)
    print("checks:",len(m["checks"]),"not_applicable:",len(m["not_applicable"]))
main()
