#!/bin/sh
# Runs the repository's pinned suite with the verif guard OFF and compares with /root/.vp/BASELINE.json stable_pass.
export GOFLAGS=-mod=mod GOPROXY=off GOSUMDB=off GOTOOLCHAIN=local
cd /repo || exit 2
OUT=$(mktemp /var/tmp/vp-baseline.XXXXXX)
go test -json -vet=off -count=1 -timeout 25m ./... > "$OUT" 2>/dev/null
python3 - "$OUT" <<'PY'
import json,sys
passed=set(); failed=set()
for line in open(sys.argv[1]):
    try: e=json.loads(line)
    except Exception: continue
    t=e.get("Test"); 
    if not t: continue
    k=e["Package"]+"::"+t
    if e.get("Action")=="pass": passed.add(k)
    elif e.get("Action")=="fail": failed.add(k)
try:
    stable=json.load(open("/root/.vp/BASELINE.json"))["stable_pass"]
except Exception as ex:
    print("no baseline file:",ex); stable=[]
missing=[s for s in stable if s not in passed]
print("stable=%d passed=%d failed=%d missing_from_stable=%d"%(len(stable),len(passed),len(failed),len(missing)))
for m in missing[:50]: print("NOT PASSING:",m)
sys.exit(1 if missing else 0)
PY
RC=$?
rm -f "$OUT"
exit $RC
