#!/usr/bin/env python3
"""Refreshes commit hashes of fixed entries in known_findings.json from /repo's log (matches by 'subject' key)."""
import json,subprocess
log=subprocess.run(['git','-C','/repo','log','--format=%h %s'],capture_output=True,text=True).stdout.splitlines()
ff=json.load(open('/verif/known_findings.json'))
for f in ff['findings']:
    if f.get('status')!='fixed': continue
    subj=f.get('subject')
    if not subj: continue
    hit=[l.split()[0] for l in log if subj in l]
    if not hit: print("NO COMMIT FOR",f['id']); continue
    f['commit']=hit[0]
    f['line']="fixed: property=%s %s %s"%(f['property'],hit[0],f['what'])
json.dump(ff,open('/verif/known_findings.json','w'),indent=1)
print("ok")
