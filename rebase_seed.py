#!/usr/bin/env python3
"""rebase_seed.py <ids...> : try to carry stored patches that no longer apply over to /repo HEAD with GNU patch and a fuzz factor,
in a scratch worktree; a patch that then applies and builds is rewritten as the diff against HEAD (meta: rebased)."""
import json,os,subprocess,sys,shutil
env=dict(os.environ,GOFLAGS="-mod=mod",GOPROXY="off",GOSUMDB="off",GOTOOLCHAIN="local")
def sh(c,cwd=None): return subprocess.run(c,shell=True,cwd=cwd,env=env,capture_output=True,text=True)
wt="/var/tmp/vp-rebase"
sh(f"git -C /repo worktree remove --force {wt}"); shutil.rmtree(wt,ignore_errors=True)
sh(f"git -C /repo worktree add --detach {wt} HEAD")
head=sh("git -C /repo rev-parse --short HEAD").stdout.strip()
for sid in sys.argv[1:]:
    d=f"/verif/seeded/{sid}"
    sh("git reset --hard -q && git clean -fdq",cwd=wt)
    r=sh(f"patch -p1 -F 6 --no-backup-if-mismatch < {d}/patch.diff",cwd=wt)
    if r.returncode!=0:
        print(sid,"patch failed:",(r.stdout+r.stderr).strip().splitlines()[-3:]); continue
    b=sh("go build ./...",cwd=wt)
    if b.returncode!=0:
        print(sid,"applies with fuzz but does not build:",b.stderr[:300]); continue
    diff=sh("git diff",cwd=wt).stdout
    if not diff.strip(): print(sid,"empty diff"); continue
    shutil.copy(d+"/patch.diff",d+"/patch.orig.diff") if not os.path.exists(d+"/patch.orig.diff") else None
    open(d+"/patch.diff","w").write(diff)
    m=json.load(open(d+"/meta.json")); m["rebased"]=(m.get("rebased","")+f"; carried over to {head} with patch -F6 (context had moved)").lstrip("; ")
    json.dump(m,open(d+"/meta.json","w"),indent=1)
    print(sid,"rebased")
sh("git reset --hard -q && git clean -fdq",cwd=wt)
sh(f"git -C /repo worktree remove --force {wt}")
