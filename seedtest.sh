#!/bin/sh
# usage: seedtest.sh <patch.diff> <Cxx> [tier]  — apply a seeded change to /repo, run the check, undo.
P=$1; ID=$2; TIER=${3:-quick}
cd /repo || exit 2
if ! git diff --quiet; then echo "/repo dirty"; exit 2; fi
git apply "$P" || { echo "patch does not apply"; exit 2; }
cd /verif && ./run.sh "$ID" "$TIER" > /var/tmp/vp-seedtest.out 2>&1; RC=$?
git -C /repo checkout -- .
grep -E "VIOLATION|features:|KNOWN|tier=" /var/tmp/vp-seedtest.out | head -${SEEDLINES:-12}
echo "exit=$RC"
